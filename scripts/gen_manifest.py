#!/usr/bin/env python3
"""Generates /verif/MANIFEST.json from the table below (kept in one place so the file stays valid)."""
import json, os, subprocess, sys

HERE = os.path.dirname(os.path.abspath(__file__))
ROOT = os.path.dirname(HERE)

# property -> (level category, technique, level text, level note, design ref)
CHECKS = {
    "C20": ("exploration",
            "Go race detector over concurrent workloads (reports with a gmsm frame are violations), equality of each concurrent result with its sequential counterpart, porcupine linearizability checks of recorded histories, stream-consistency monitors for concurrent Read/Write/Close and for duplex traffic (multi-record writes) with an injected record fault, concurrent verification on pools holding same-name CAs, ticket decryption during key-list rotation, SM4 mode and GCM helpers under different keys in a tight concurrent loop, Close after a failed write, PKCS#7 objects of 70..200 KiB parsed in parallel, a churning client session cache (24 goroutines, 6 names, capacity 2), Writes of up to 256 KiB from concurrent writers",
            "The worker is built with -race and runs: package-level operations on separate data from 2..32 goroutines (sign/verify/encrypt/decrypt/key exchange, SM3, SM4 helpers, GCM, parse + chain verification on shared pools, PKCS#7) compared with sequential results; one shared cipher.Block under mixed Encrypt/Decrypt vs the reference; first use of the curve from 16 goroutines in fresh child processes; one Config serving up to 48 simultaneous handshakes with concurrent ticket-key rotation, shared session cache and pools; porcupine on the LRU session cache and the ticket-key register (many short histories, unique values, 10 s checker timeout = inconclusive); one connection with concurrent tagged writers, a reader and Close at a seeded instant (per-writer FIFO, no duplication, no loss before close, all calls return, Write after Close errors).",
            "Trusted: Go race detector, porcupine v1.3.0, sequential results and /verif/ref as oracles. A clean run speaks only for the interleavings produced (evidence lists goroutine counts and histories).",
            "DESIGN.md §5 C20"),
    "C08": ("fault_enumeration",
            "attacker catalogue executed against live endpoints: misconfigured genuine stacks, a scripted reference peer without the identity, a record-level man in the middle rewriting the cleartext flight, resumption-bypass scenarios, Config.Clone copies, same-name and grafted-key forgeries on long-lived pools, look-alike server names, redirected reconnects after cache eviction, identity cases through GetConfigForClient with a lax listener Config, a scripted server omitting or replacing the ServerKeyExchange; completion/panic monitors",
            "(1) gmtls servers/clients holding genuine certificates with wrong keys, untrusted/expired/not-yet-valid/wrong-name/swapped/RSA/P-256 certificates, client certificates with wrong key/untrusted/expired under each ClientAuth policy; (2) a well-formed reference peer whose ServerKeyExchange is over other randoms / another encryption certificate / by another key / replayed, whose CertificateVerify is by another key / over another transcript / omitted / replayed, wrong Finished, pre-master under another key; (3) a man in the middle flipping every byte (sampled for long messages in quick) of every cleartext handshake message and applying structured rewrites (suite downgrade, randoms, session id, certificate swap/drop/append, drop/duplicate message). The attacked side must return an error; after a real byte change never both sides complete; no panic on the attacked side. Both GM suites, client-auth policies, plus TLS 1.2.",
            "Trusted: ground-truth PKI, /verif/ref TLCP peer. A misconfigured attacker-side endpoint crashing on its own configuration is not judged.",
            "DESIGN.md §5 C08"),
    "C16": ("fault_enumeration",
            "history workload (scenario templates + random walks) over one client cache and one to three named server configurations (farms, Clone-made members, version caps) with a resumption-model oracle, passive decoding of resumed sessions under the original master secret, an exhaustive ticket-tampering sweep through the session-state hook, forced eviction templates, and scale scenarios (client certificate lists of 33 entries / 35 KB, ticket-key lists of up to 40 keys replaced by short ones)",
            "Generates histories of up to 6 connections interleaved with ticket-key rotations (keep old / replace all), suite-list, ClientAuth and ticket-enable changes and client suite changes, for GMSSL and TLS 1.2; a model classifies every connection as must-resume / must-not-resume / may from the registry of issued tickets and the live key set; both ends' DidResume must agree and match; resumed GMSSL sessions must decode under the original session's master secret; peer identity must equal the original's. Tampering: every byte position (and truncation/extension) of a ticket followed by a connection: never resumed, always a silent full handshake.",
            "Trusted: resumption model from the property text, /verif/ref TLCP decoder. 'may' connections are not judged on DidResume.",
            "DESIGN.md §5 C16"),
    "C06": ("exploration",
            "configuration-matrix workload with a policy-model oracle, agreement / prefix-stream monitors, a passive reference GM/T 0024 decoder over the tapped wire and key log, crypto/tls as independent peer (with client certificates), seeded write plans, a second connection per ticket-enabled configuration, Config.Clone copies, every row of the suite table, application-protocol lists and certificate selection by server name, default suite lists, a live reference peer whose GCM nonces run independently of its sequence numbers, sessions of 66000 records each way against crypto/tls",
            "Runs gmtls client/server pairs over an in-memory tapped transport for the matrix server mode x client kind x suites x preference x ClientAuth x client certificate x certificate source x tickets (GM part full-factorial in thorough), plus TLS 1.0-1.2 suites against crypto/tls in both roles; a policy model from the property text says must-complete / must-fail / unspecified; both ends must agree on ConnectionState and ExportKeyingMaterial; position-tagged payloads (to 200 KiB, seeded fragment plans, both directions concurrently) must arrive as exact prefixes; every GMSSL session is re-derived by the reference decoder (record MAC/tag under index-as-sequence-number, Finished values, ServerKeyExchange signature, pre-master recovery, plaintext equality).",
            "Trusted: policy model, /verif/ref TLCP decoder (self-consistent reading of GM/T 0024 over ref SM2/SM3/SM4, not certified), Go crypto/tls. ECDHE-SM2 completion is unspecified.",
            "DESIGN.md §5 C06"),
    "C07": ("fault_enumeration",
            "fault catalogue applied by an interposing transport to live GMSSL sessions with prefix-stream / sticky-error / exact-byte-count monitors, exhaustive white-box bit flips through the halfConn hook, reference-built padding cases, passive nonce monitors, long sessions and long white-box runs across sequence-number carries with far replays, the same fault catalogue on the standard-TLS rows of the suite table (control-session-calibrated positions), short-read Config.Rand sources with a partial-IV-freshness monitor",
            "One fault (bit flip per region, truncation/extension, swap, duplicate, drop, cross-direction and cross-connection injection, header rewrites, early end of stream) is applied to one application record of a real session; the receiver must deliver exactly the bytes of the records before the affected one (count taken from the reference decoder), return a fatal sticky error and never a wrong byte. White box: every bit of every record for payload sizes {0,1,15,16,17,31,32,100} at sequence numbers 0 and 3, sampled to 16384 bytes, replay/out-of-order, all CBC padding lengths 0..255 built by the reference and each corrupted MAC/padding/length byte, GCM nonce = sequence counter; passive IV-uniqueness over all sessions.",
            "Trusted: /verif/ref TLCP record layer. Header length bytes are judged only in the black-box layer.",
            "DESIGN.md §5 C07"),
    "C15": ("fault_enumeration",
            "scripted reference peer with one deviation per run and a differential oracle against a strict reference endpoint (GMSSL); live standard-TLS handshakes whose cleartext flight is rewritten message by message (TLS 1.0-1.2); configuration-variant targets; compound (two-step) deviations; signature-scheme code-point sweep; HelloRequest after completion; Dial/DialWithDialer over loopback sockets against raw misbehaving peers; a scriptable reference TLS 1.2 client (RSA, AES-128-CBC-SHA, NPN; validated against crypto/tls) deviating in the encrypted second flight; ServerHello-legality monitor on the wire; panic capture; logical deadlock breaker, closed-input watchdog and spin (bounded-progress) detection",
            "A reference GM/T 0024 client/server plays an otherwise honest handshake against the gmtls client and the GMSSL-only, auto-switch and TLS-only servers with one deviation at one step: omit/repeat, every handshake type out of turn, CCS/alerts/application data/unknown record types/SSLv2 header at every step, oversize and empty records, every truncation, handshake-length and per-byte field perturbations, certificate-list variants (RSA, single, empty, garbage, P-256), end of stream after every step, ClientHello versions 0x0000..0x0400 x suite and compression lists. Whenever the strict reference endpoint refuses the same script, gmtls must return an error, never complete, never panic, and return once its input has ended.",
            "Trusted: strict reference endpoint as the definition of 'deviates'. Scripts it completes are not judged; no-op deviations are detected per run and not judged.",
            "DESIGN.md §5 C15"),
    "C18": ("fault_enumeration",
            "derivation catalogue per decoder (byte edits, TLV rewrites, structure-preserving DER tree edits, depth-2 edits; recorded handshake flights through canned connections with framing-preserving message edits) executed under panic capture, per-call thread-CPU budget with a CPU-based hang watcher, and serial allocation sampling",
            "For each of ~55 decoders of untrusted bytes (incl. the 16 TLS handshake message decoders, session state and ticket decryption through the verif hooks) takes valid encodings produced by the library and derives every truncation, single-byte substitutions from {00,01,7f,80,ff,b^1,b^80} (all seven in thorough), every TLV length rewritten to {0,len-1,len+1,0x80,0x84ffffffff,0x847fffffff}, universal tag swaps, BER nesting to depth 10^4 and, under a 32 MiB goroutine-stack cap, 2*10^5 / 10^6 (definite, indefinite, unterminated), flat constructed values with up to 5*10^5 members, valid encodings widened to about 1 MiB (up to 70000 extensions / entries), a 2^24-byte primitive, empty and random inputs; a live-heap retention monitor over series of distinct bloated inputs per decoder; each call runs in a child process with recover(), a thread-CPU budget of 2 s + 1 us/byte, and a watcher that turns 20 s of CPU in one call into a verdict; allocations are sampled serially against 64*len + 8 MiB.",
            "Trusted: Go runtime (recover, getrusage, MemStats). Bytes encoding a password-stretching iteration count are not mutated (exempt by the property).",
            "DESIGN.md §5 C18"),
    "C10": ("exploration",
            "reference path validator over generator ground truth (no cryptography, none of gmsm's parser) compared with Verify on generated PKI topologies; every returned chain checked link by link; pools shared across queries, re-keyed CA and look-alike scenarios, certificates re-issued in another extension order by the reference signer, forced cross-certified / usage-restricted / subdomain-constrained topologies, X.509 v1/v2 intermediates, a 120-times re-keyed CA with a forged same-name certificate at swept pool positions, 301-name leaves, instants beyond the year 2262",
            "Generates PKI topologies (roots, re-issued/cross-signed/looping intermediates, same-name impostor keys, leaves) that are valid except for 0-4 injected faults (expired, not yet valid, non-CA, no basic constraints, path length, key usage, name constraints, corrupted signature, impostor, EKU, critical extension, missing from pool) and queries (time incl. boundary instants, host classes, usages, pool insertion order) perturbed in one dimension; Verify must return a chain exactly when the reference finds one inside the region the statement determines (32 interpretation variants must agree), and every returned chain is checked against ground truth.",
            "Trusted: generator ground truth; gmsm CreateCertificate/ParseCertificate only as the means to materialise certificates (C09). Unspecified region listed in evidence assumptions.",
            "DESIGN.md §5 C10"),
    "C17": ("exploration",
            "round-trip and wrong-holder monitors for enveloped data, ground-truth tamper monitors for signed data (library-built RSA and harness-built SM2 incl. reference-signed) and PKCS#12 (SM2, RSA, ECDSA keys, CA chains, third-party fixture bundles from OpenSSL and the JDK incl. both forms of the empty password, file helpers, thousands of key derivations between two decodes of one bundle), DER length-boundary windows, per-byte substitution sweeps, held-results re-check",
            "Envelopes contents for 1..3 SM2 recipients (both content ciphers, both orderings) and RSA recipients and opens them with every recipient, a non-recipient, the wrong key, wrong ordering and a key of the other type; verifies signed data untouched and after content/attribute/signature/signer changes and after every single-byte substitution (must not verify unless content, signed attributes, signature integers and certified key are unchanged); PKCS#12 Encode/DecodeAll/ToPEM with password classes, wrong passwords and byte substitutions (error or same key and certificate).",
            "Trusted: ground-truth contents/keys, /verif/ref SM2 signing, encoding/asn1 mirror structures. CBC-enveloped content has no integrity protection: mutated CBC envelopes are only required not to panic.",
            "DESIGN.md §5 C17"),
    "C01": ("exploration",
            "reference-model monitor on recorded sign/verify executions: nonce recovery k'=s(1+d)+rd, recomputation of r from GM/T 0003.2, nonce/reader-consumption and chunking-independence monitors, differential rejection against a reference verifier and strict DER reader (also through the x509 consumer), forged-digest class for the digest-taking verifier, in-place-edit histories, record-buffer layouts (inputs as sub-slices of one live buffer), dense message/ID length sweeps, held-results re-check",
            "Signs (key class x message length x ID class x nonce stream) through Sm2Sign and PrivateKey.Sign with a recording reader; for each signature the monitor recovers the nonce the signature implies and checks (r,s) is the pair the standard prescribes, that equal reader bytes give equal signatures, that different streams never share r or nonce, that all three verifiers accept; then every single-field perturbation of valid tuples (message, ID, key, r, s, DER manglings) is given to gmsm and to the reference: gmsm must reject whatever the standard rejects.",
            "Trusted: /verif/ref SM2 (GM/T 0003.5 signature example) and the harness's strict DER reader. Retry branches (r=0, r+k=n, s=0) unreachable by sampling.",
            "DESIGN.md §5 C01"),
    "C02": ("exploration",
            "reference decryption of every produced ciphertext + round-trip monitors over all API forms + rejection fault catalogue (byte changes, truncations, other key, ordering, invalid-curve C1) + reader-budget bounded-progress, chunking-independence and forced retry-branch monitors",
            "Encrypts every plaintext length of the tier grid (thorough: 0..4096) in both orderings, raw/ASN.1/crypto.Decrypter, with recording readers; each ciphertext must open under the reference GM/T 0003.4 decryption and under gmsm; reference-made ciphertexts (incl. nonces giving short coordinates) must open under gmsm; every single-byte change / truncation / wrong key / wrong ordering / off-curve C1 consistent with [d]C1 must be rejected; Encrypt must return within 64 nonces.",
            "Trusted: /verif/ref SM2 encryption (GM/T 0003.5 example). The all-zero-KDF retry is unreachable for non-empty plaintexts.",
            "DESIGN.md §5 C02"),
    "C03": ("exploration",
            "differential monitor against affine math/big group law and big-integer field arithmetic (white-box hooks), constructed boundary points (zero coordinate, top of the field), scripted-reader monitor for GenerateKey with reduction-edge contents",
            "Runs Add/Double/ScalarMult/ScalarBaseMult/IsOnCurve/Params over boundary-class scalars (0..40 bytes incl. n-16..n+16 with leading zeros, multiples of n, all-ones windows) and points (incl. short coordinates, infinity, P=Q, P=-Q); field Mul/Square/Add/Sub/FromBig/ToBig over limb patterns {0,1,max-1,max}^9 (exhaustive in thorough) and op chains; GenerateKey with all-zero/all-ff/short/failing readers.",
            "Trusted: /verif/ref affine arithmetic ([n]G=O, GM/T 0003.5 examples). Scalars/points sampled by class.",
            "DESIGN.md §5 C03"),
    "C09": ("exploration",
            "ground-truth round-trip monitor (template vs parsed fields), issuer/other-key verification monitor, reference SM2 verification of signed bytes, byte-exact issuer / name-chaining monitor, differently-signed issuer certificates, issuer keys with shortening coordinates used in sequence, per-byte tamper sweep",
            "Creates certificates, CSRs and CRLs (both constructors) over generated templates x signer family {SM2, RSA, P-256, P-384} x algorithm {unset, each of the family}; parses back and compares field by field with the template; verifies under issuer, under a fresh key, with the reference SM2 verifier over the raw TBS; substitutes bytes at every position (quick: every position for a tenth of the objects, sampled for the rest) and requires parse or verification failure unless signed bytes and signature integers are unchanged.",
            "Trusted: templates as ground truth, /verif/ref SM2 verify, encoding/asn1, crypto/x509 for RSA/ECDSA issuers.",
            "DESIGN.md §5 C09"),
    "C13": ("exploration",
            "differential monitor against a reference GM/T 0003.3 key exchange for both roles + agreement monitor + hostile-ephemeral catalogue + constructed peer ephemerals (incl. structs naming another curve), forced all-zero-key class, dense identity-length sweep",
            "Runs KeyExchangeA/B over the standard's example, key/ephemeral classes with leading-zero coordinates (incl. searched short shared-point coordinates), identity lengths 0..8191 and key lengths 1..1024; K, S1, S2 of both parties must agree with each other and with the reference; off-curve or infinite peer ephemerals must yield an error.",
            "Trusted: /verif/ref key exchange (GM/T 0003.5 example K, S1, S2).",
            "DESIGN.md §5 C13"),
    "C14": ("exploration",
            "round-trip monitors over every offered serialization with forced leading-zero classes, independent PBES2 decryption, wrong-password catalogue, repeated reads, held-results re-check of every returned slice, accept-iff-match monitor for the TLS loaders over forced key classes",
            "Serialises keys (classes with 1..3 leading zero bytes in d, x, y, odd hex digits), signatures and ciphertexts through every offered form and back; decrypts gmsm's encrypted PKCS#8 independently (PBKDF2-HMAC-SHA1/AES-256-CBC); tries wrong passwords (one bit, case, length, empty, nil); feeds matching, mismatching and swapped PEM pairs (SM2, RSA, P-256; memory and files) to all six loaders.",
            "Trusted: /verif/ref public-key derivation, x/crypto/pbkdf2 + crypto/aes, crypto/x509. Passwords equal up to trailing zero bytes are the same PBKDF2-HMAC password and are skipped.",
            "DESIGN.md §5 C14"),
    "C19": ("exploration",
            "model-based stream monitor (reference pad/unpad, reference CBC) over scripted sources and write plans (incl. fixed sizes around the writer's 1 KiB swap area and scratch buffers overwritten after each Write) with a Read-call budget",
            "Drives PKCS7PaddingReader with scripted sources (one-byte, short non-EOF, zero-byte reads, data+EOF, mid-stream error) x caller buffer sizes x lengths 0..5000 x block sizes 8/16; PKCS7PaddingWriter with write plans 1..8192 and every invalid final-block pattern / unaligned stream; P7BlockEnc/P7BlockDecrypt over CBC(ref SM4), CBC(gmsm SM4), CBC(DES).",
            "Trusted: ref PKCS#7 pad, crypto/cipher CBC, ref SM4.",
            "DESIGN.md §5 C19"),
    "C04": ("exploration",
            "model-based trace monitor + differential reference model (SM3 transcribed from GM/T 0004) over generated inputs and op sequences, HMAC/PBKDF2 consumers incl. long series on one keyed object, hundreds of kept results re-checked at the end, copy loops through large reused buffers, a 520 MiB stream",
            "Runs the real sm3 package over every message length of the tier's grid, random partitions into 1..8 writes (incl. empty and buffer-recycling writes), exhaustively enumerated op sequences over {Write,Sum(nil),Sum(prefix),Sum(prefix+cap),Reset} to depth 4 (quick) / 5 (thorough) plus random traces to length 8, HMAC/PBKDF2 instantiations and multi-MiB streams; a monitor compares every observable result with a model that remembers the bytes written since Reset and an independent SM3. Held = no divergence on the executions produced.",
            "Trusted: /verif/ref SM3 (validated at start of every run against the GM/T 0004 vectors), Go crypto/hmac and x/crypto/pbkdf2. Sampling by length class, not all contents.",
            "DESIGN.md §5 C04"),
    "C05": ("exploration",
            "differential reference-model monitor (SM4 with S-box computed from its algebraic definition) with measured S-box lane coverage; history monitors on one cipher object and on one reused key buffer, canary buffers",
            "Runs sm4.NewCipher Encrypt/Decrypt on structured (single-bit, all-zero/one) and random (key, block) pairs until every S-box input value was observed in every byte lane of data path and key schedule; random Encrypt/Decrypt histories on one object with dst==src and disjoint canary buffers, each step compared with the stateless reference; key lengths 0..64. Held = no divergence on the executions produced.",
            "Trusted: /verif/ref SM4 (GM/T 0002 vector and 1e6-iteration vector in setup). (key,block) space is sampled.",
            "DESIGN.md §5 C05"),
    "C11": ("exploration",
            "differential monitor against crypto/cipher modes over the reference SM4 + canary-buffer memory-ownership monitor (incl. the IV handed to SetIV) + buffer-reuse histories",
            "Every plaintext length 0..1024 x {ECB,CBC,CFB,OFB} x (key,IV) groups (default zero IV and SetIV), inputs inside canary arrays with spare capacity {0,1,15,16,64}; ciphertext must equal the stdlib mode over the reference cipher of the PKCS#7-padded plaintext, obey the length rule, decrypt back, and no caller memory (input, key, IV, spare capacity, guard zones) may change.",
            "Trusted: ref SM4, crypto/cipher CBC/CFB/OFB, ref PKCS#7 pad. Lengths exhaustive; keys/IVs sampled.",
            "DESIGN.md §5 C11"),
    "C12": ("exploration",
            "differential monitor against crypto/cipher GCM over the reference SM4 (and over gmsm's block / the TLS suite construction), the suite-table record protection through the halfConn hook, tag-sensitivity sweep, canary buffers, buffer-reuse histories, thousands of distinct keys followed by the first ones again",
            "Exhaustive |A|x|P| grid 0..80 at |IV|=12, IV lengths 1..64, IVs with 0xff bytes, algebraically constructed IVs whose pre-counter block sits at the 32-bit wrap, inputs to 64 KiB, and a single-bit authentication sweep over key/IV/A/C; ciphertext and tag must equal standard GCM, decryption must return the plaintext of the reference ciphertext, caller memory must be untouched.",
            "Trusted: crypto/cipher generic GCM over ref SM4, pinned by the RFC 8998 A.1 vector at start of run.",
            "DESIGN.md §5 C12"),
}

NOT_YET = {}

ALL = ["C%02d" % i for i in range(1, 21)]


def main():
    hooks_commits = []
    try:
        out = subprocess.run(["git", "-C", "/repo", "log", "--format=%H %s"], capture_output=True, text=True).stdout
        for l in out.splitlines():
            h, _, s = l.partition(" ")
            if s.startswith("verif-hooks:"):
                hooks_commits.append(h)
    except Exception:
        pass
    checks = []
    for pid in ALL:
        if pid not in CHECKS:
            continue
        cat, tech, text, note, ref = CHECKS[pid]
        checks.append({
            "property_id": pid,
            "quick_cmd": "./bin/vcheck -p %s -tier quick" % pid,
            "thorough_cmd": "./bin/vcheck -p %s -tier thorough" % pid,
            "evidence_file": "/verif/evidence/%s.json" % pid,
            "replay_cmd_template": "./bin/vcheck -p %s -replay {path}" % pid,
            "engine": "vcheck/vworker",
            "level_claimed": {"category": cat, "text": text, "design_ref": ref},
            "level_note": note,
            "technique": tech,
        })
    na = []
    for pid in ALL:
        if pid not in CHECKS:
            na.append({"property_id": pid, "reason": NOT_YET.get(pid, "check not built yet in this round (runtime monitoring applies; see DESIGN.md §5)")})
    m = {
        "version": 1,
        "setup_cmd": "sh scripts/setup.sh",
        "hooks": {
            "guard": "verif",
            "enable": "go build -tags verif (the driver builds cmd/vworker with -tags verif against /repo via a replace directive)",
            "baseline_off_cmd": "sh /verif/scripts/baseline_off.sh",
            "source_commits": hooks_commits,
            "add_only": True,
        },
        "engines": [
            {"name": "vcheck/vworker", "path": "/verif/cmd", "serves_properties": sorted(CHECKS.keys()),
             "kind_free_text": "runtime monitoring: driver rebuilds a worker linked against /repo's working tree (tag verif), the worker drives generated/hostile/concurrent workloads through the real gmsm code while reference-model, invariant, history and sanitizer monitors observe; findings are matched against KNOWN_FINDINGS.txt"},
        ],
        "checks": checks,
        "not_applicable": na,
        "notes": "Technique family: runtime monitoring and sanitizers. exit 0 held / exit 1 VIOLATION / exit 2 INCONCLUSIVE (build failure, watchdog, too few observed events). VERIF_SEED selects the seed (default 1).",
    }
    with open(os.path.join(ROOT, "MANIFEST.json"), "w") as f:
        json.dump(m, f, indent=1)
        f.write("\n")
    # validate when jsonschema is available
    try:
        import jsonschema
        sch = json.load(open("/root/.vp/MANIFEST.schema.json"))
        jsonschema.validate(m, sch)
        print("MANIFEST.json valid;", len(checks), "checks,", len(na), "not_applicable")
    except ImportError:
        print("MANIFEST.json written (jsonschema not importable here)")


if __name__ == "__main__":
    main()
