// Package mon holds the shared monitor plumbing used by the worker: seeded randomness,
// the reporter (evaluations, class coverage, violations with finding keys, samples),
// panic capture, canary buffers and the recording reader.
package mon

import (
	"bytes"
	"encoding/hex"
	"encoding/json"
	"fmt"
	"math/big"
	"os"
	"runtime"
	"sort"
	"strings"
	"sync"
)

// ---------------------------------------------------------------- RNG

// RNG is splitmix64; sub-streams are keyed by strings so that case lists are a pure function of
// (seed, tier, generator name).
type RNG struct {
	s    uint64
	side uint64 // state of the side stream that serves single-byte reads (see Read)
}

func NewRNG(seed uint64) *RNG { return &RNG{s: seed} }

func (r *RNG) U64() uint64 {
	r.s += 0x9e3779b97f4a7c15
	z := r.s
	z = (z ^ (z >> 30)) * 0xbf58476d1ce4e5b9
	z = (z ^ (z >> 27)) * 0x94d049bb133111eb
	return z ^ (z >> 31)
}

// Sub derives an independent stream from this stream's *initial-independent* key material.
func Sub(seed uint64, name string) *RNG {
	h := uint64(1469598103934665603)
	for i := 0; i < len(name); i++ {
		h ^= uint64(name[i])
		h *= 1099511628211
	}
	r := &RNG{s: seed ^ h}
	r.U64()
	return r
}

func (r *RNG) Intn(n int) int {
	if n <= 0 {
		return 0
	}
	return int(r.U64() % uint64(n))
}

func (r *RNG) Bytes(n int) []byte {
	b := make([]byte, n)
	r.Fill(b)
	return b
}

func (r *RNG) Fill(b []byte) {
	for i := 0; i < len(b); {
		v := r.U64()
		for j := 0; j < 8 && i < len(b); j++ {
			b[i] = byte(v)
			v >>= 8
			i++
		}
	}
}

func (r *RNG) Bool() bool { return r.U64()&1 == 1 }

// Read makes an RNG usable as an io.Reader (never fails). Single-byte reads are served from a side stream and leave the
// main stream where it is: the standard library's key generation and signing call randutil.MaybeReadByte, which reads
// one byte or none on a coin flip — through the main stream that would shift everything generated afterwards by a byte
// on every other run, and a case list would no longer be a function of the seed.
func (r *RNG) Read(p []byte) (int, error) {
	if len(p) == 1 {
		if r.side == 0 {
			r.side = r.s ^ 0x6a09e667f3bcc909
		}
		r.side += 0x9e3779b97f4a7c15
		z := r.side
		z = (z ^ (z >> 30)) * 0xbf58476d1ce4e5b9
		z = (z ^ (z >> 27)) * 0x94d049bb133111eb
		p[0] = byte(z ^ (z >> 31))
		return 1, nil
	}
	r.Fill(p)
	return len(p), nil
}

// Pick returns one of the given ints.
func (r *RNG) Pick(v ...int) int { return v[r.Intn(len(v))] }

// ---------------------------------------------------------------- Reporter

// Violation is one distinct finding (deduplicated by key).
type Violation struct {
	Key     string      `json:"key"`
	Count   int         `json:"count"`
	Detail  string      `json:"detail"`
	Witness interface{} `json:"witness,omitempty"`
}

// Result is what a worker run hands back to the driver.
type Result struct {
	Property    string                 `json:"property"`
	Tier        string                 `json:"tier"`
	Seed        uint64                 `json:"seed"`
	Evaluations int64                  `json:"evaluations"`
	Classes     map[string]int64       `json:"classes"`
	Nontrivial  int                    `json:"distinct_nontrivial"`
	Rule        string                 `json:"rule"`
	Floor       int64                  `json:"floor"`
	Required    map[string]int64       `json:"required_counters,omitempty"`
	Exhaustive  []string               `json:"exhaustive_subspaces,omitempty"`
	Violations  []*Violation           `json:"violations"`
	Counters    map[string]int64       `json:"counters"`
	Samples     []interface{}          `json:"samples"`
	SelfTest    []string               `json:"ref_selftest"`
	Notes       []string               `json:"notes,omitempty"`
	Trusted     []string               `json:"trusted_base,omitempty"`
	Assumptions []string               `json:"assumptions,omitempty"`
	Extra       map[string]interface{} `json:"extra,omitempty"`
	Done        bool                   `json:"done"`
}

type Reporter struct {
	mu      sync.Mutex
	res     Result
	viol    map[string]*Violation
	nontriv map[string]struct{}
	hashes  map[uint64]struct{}
	maxSamp int
	fine    bool
	journal *os.File
}

func NewReporter(prop, tier string, seed uint64) *Reporter {
	return &Reporter{
		res: Result{Property: prop, Tier: tier, Seed: seed, Classes: map[string]int64{}, Counters: map[string]int64{},
			Extra: map[string]interface{}{}},
		viol: map[string]*Violation{}, nontriv: map[string]struct{}{}, hashes: map[uint64]struct{}{}, maxSamp: 6,
	}
}

// Eval records one executed case under a class key. Non-trivial cases contribute their class key
// to distinct_nontrivial.
func (r *Reporter) Eval(class string) { r.EvalN(class, 1, true) }

// EvalTrivial records a case that is trivial by the check's rule (does not count as distinct).
func (r *Reporter) EvalTrivial(class string) { r.EvalN(class, 1, false) }

func (r *Reporter) EvalN(class string, n int64, nontrivial bool) {
	r.mu.Lock()
	r.res.Evaluations += n
	r.res.Classes[class] += n
	if nontrivial && !r.fine {
		r.nontriv[class] = struct{}{}
	}
	r.mu.Unlock()
}

// Distinct adds a distinct non-trivial case identity (e.g. digest of the inputs) without counting an
// evaluation — used when distinctness is finer than the class key.
func (r *Reporter) Distinct(id string) {
	r.mu.Lock()
	r.nontriv[id] = struct{}{}
	r.mu.Unlock()
}

// FineDistinct switches distinct counting from class keys to explicit Distinct/DistinctBytes identities.
func (r *Reporter) FineDistinct() { r.fine = true }

// DistinctBytes adds the identity of a non-trivial case given by its input bytes (64-bit FNV digest,
// so the count is measured without holding the inputs).
func (r *Reporter) DistinctBytes(parts ...[]byte) {
	h := uint64(1469598103934665603)
	for _, p := range parts {
		for _, b := range p {
			h ^= uint64(b)
			h *= 1099511628211
		}
		h ^= 0xff
		h *= 1099511628211
	}
	r.mu.Lock()
	r.hashes[h] = struct{}{}
	r.mu.Unlock()
}

func (r *Reporter) Count(name string, n int64) {
	r.mu.Lock()
	r.res.Counters[name] += n
	r.mu.Unlock()
}

// Require declares that a run in which the named counter stays below min observed too little of the path the counter
// stands for: the driver then reports the run as inconclusive ("hook never reached"), never as held.
func (r *Reporter) Require(name string, min int64) {
	r.mu.Lock()
	if r.res.Required == nil {
		r.res.Required = map[string]int64{}
	}
	r.res.Required[name] = min
	r.mu.Unlock()
}

func (r *Reporter) Max(name string, v int64) {
	r.mu.Lock()
	if v > r.res.Counters[name] {
		r.res.Counters[name] = v
	}
	r.mu.Unlock()
}

func (r *Reporter) Counter(name string) int64 {
	r.mu.Lock()
	defer r.mu.Unlock()
	return r.res.Counters[name]
}

func (r *Reporter) Sample(v interface{}) {
	r.mu.Lock()
	if len(r.res.Samples) < r.maxSamp {
		r.res.Samples = append(r.res.Samples, v)
	}
	r.mu.Unlock()
}

func (r *Reporter) Note(s string) {
	r.mu.Lock()
	r.res.Notes = append(r.res.Notes, s)
	r.mu.Unlock()
}

func (r *Reporter) SetExtra(k string, v interface{}) {
	r.mu.Lock()
	r.res.Extra[k] = v
	r.mu.Unlock()
}

func (r *Reporter) Meta(rule string, floor int64, trusted, assumptions []string) {
	r.mu.Lock()
	r.res.Rule, r.res.Floor, r.res.Trusted, r.res.Assumptions = rule, floor, trusted, assumptions
	r.mu.Unlock()
}

func (r *Reporter) Exhaustive(sub string) {
	r.mu.Lock()
	r.res.Exhaustive = append(r.res.Exhaustive, sub)
	r.mu.Unlock()
}

func (r *Reporter) SetSelfTest(s []string) { r.res.SelfTest = s }

// Violation records a finding. key must be deterministic and narrow:
// <property>/<API entry>/<input class>/<symptom>.
func (r *Reporter) Violation(key, detail string, witness interface{}) {
	r.mu.Lock()
	defer r.mu.Unlock()
	v := r.viol[key]
	if v == nil {
		v = &Violation{Key: key, Detail: detail, Witness: witness}
		r.viol[key] = v
	}
	v.Count++
}

func (r *Reporter) NViolations() int {
	r.mu.Lock()
	defer r.mu.Unlock()
	return len(r.viol)
}

// Write stores the result as JSON.
func (r *Reporter) Write(path string) error {
	r.mu.Lock()
	defer r.mu.Unlock()
	r.res.Violations = r.res.Violations[:0]
	keys := make([]string, 0, len(r.viol))
	for k := range r.viol {
		keys = append(keys, k)
	}
	sort.Strings(keys)
	for _, k := range keys {
		r.res.Violations = append(r.res.Violations, r.viol[k])
	}
	r.res.Nontrivial = len(r.nontriv) + len(r.hashes)
	r.res.Done = true
	// keep the class table bounded in the file
	if len(r.res.Classes) > 400 {
		type kv struct {
			k string
			v int64
		}
		var all []kv
		for k, v := range r.res.Classes {
			all = append(all, kv{k, v})
		}
		sort.Slice(all, func(i, j int) bool { return all[i].k < all[j].k })
		m := map[string]int64{}
		step := len(all) / 400
		for i := 0; i < len(all); i += step + 1 {
			m[all[i].k] = all[i].v
		}
		r.res.Extra["classes_total"] = len(all)
		r.res.Extra["classes_table_sampled"] = true
		r.res.Classes = m
	}
	b, err := json.MarshalIndent(&r.res, "", " ")
	if err != nil {
		return err
	}
	return os.WriteFile(path, b, 0o644)
}

// ---------------------------------------------------------------- journal (for fatal crashes)

// OpenJournal opens the case journal; Begin appends a line before a risky call.
func (r *Reporter) OpenJournal(path string) error {
	f, err := os.OpenFile(path, os.O_CREATE|os.O_WRONLY|os.O_TRUNC, 0o644)
	if err != nil {
		return err
	}
	r.journal = f
	return nil
}

// Begin journals a case before executing it (unbuffered write, survives a fatal runtime error).
func (r *Reporter) Begin(id string, input []byte) {
	if r.journal == nil {
		return
	}
	if len(input) > 4096 {
		input = input[:4096]
	}
	fmt.Fprintf(r.journal, "%s %s\n", id, hex.EncodeToString(input))
}

// ---------------------------------------------------------------- panic capture

// PanicInfo describes a recovered panic.
type PanicInfo struct {
	Value string
	Func  string // top-most gmsm function on the panicking stack
}

// Guard runs f and converts a panic into PanicInfo.
func Guard(f func()) (pi *PanicInfo) {
	defer func() {
		if v := recover(); v != nil {
			pi = &PanicInfo{Value: truncate(fmt.Sprint(v), 200), Func: topGmsmFrame()}
		}
	}()
	f()
	return nil
}

func truncate(s string, n int) string {
	if len(s) > n {
		return s[:n]
	}
	return s
}

func topGmsmFrame() string {
	pcs := make([]uintptr, 64)
	n := runtime.Callers(3, pcs)
	frames := runtime.CallersFrames(pcs[:n])
	for {
		f, more := frames.Next()
		if strings.Contains(f.Function, "tjfoc/gmsm/") {
			fn := f.Function[strings.Index(f.Function, "tjfoc/gmsm/")+len("tjfoc/gmsm/"):]
			return fn
		}
		if !more {
			break
		}
	}
	return "?"
}

// ---------------------------------------------------------------- canary buffers

const canaryByte = 0xA5

// Canary places data inside a larger array: [guard | data | spare | guard]. The returned slice has
// len(data) and cap len(data)+spare.
type Canary struct {
	arr   []byte
	off   int
	n     int
	spare int
	orig  []byte
}

const guardLen = 32

func NewCanary(data []byte, spare int) *Canary {
	c := &Canary{off: guardLen, n: len(data), spare: spare, orig: append([]byte{}, data...)}
	c.arr = make([]byte, guardLen+len(data)+spare+guardLen)
	for i := range c.arr {
		c.arr[i] = canaryByte
	}
	copy(c.arr[c.off:], data)
	return c
}

// Slice returns the caller-visible slice (len n, cap n+spare).
func (c *Canary) Slice() []byte { return c.arr[c.off : c.off+c.n : c.off+c.n+c.spare] }

// Check reports what the callee changed: "" if nothing.
func (c *Canary) Check() string {
	for i := 0; i < c.n; i++ {
		if c.arr[c.off+i] != c.orig[i] {
			return fmt.Sprintf("input byte %d modified", i)
		}
	}
	for i := 0; i < c.spare; i++ {
		if c.arr[c.off+c.n+i] != canaryByte {
			return fmt.Sprintf("spare capacity byte %d written", i)
		}
	}
	for i := 0; i < guardLen; i++ {
		if c.arr[i] != canaryByte || c.arr[len(c.arr)-1-i] != canaryByte {
			return "guard zone written"
		}
	}
	return ""
}

// ---------------------------------------------------------------- recording reader

// RecReader serves bytes from a source, logs consumption and enforces a budget.
type RecReader struct {
	Src      func(p []byte) // fills p
	Served   int
	Reads    int
	Budget   int  // 0 = unlimited; after Budget bytes Read fails
	Exceeded bool // set when a Read was refused because of the budget
	Short    bool // serve at most 7 bytes per Read
	Log      []byte
	KeepLog  bool
}

type budgetErr struct{}

func (budgetErr) Error() string { return "mon: reader budget exhausted" }

func (r *RecReader) Read(p []byte) (int, error) {
	if len(p) == 0 {
		return 0, nil
	}
	if r.Budget > 0 && r.Served >= r.Budget {
		r.Exceeded = true
		return 0, budgetErr{}
	}
	n := len(p)
	if r.Short && n > 7 {
		n = 7
	}
	if r.Budget > 0 && r.Served+n > r.Budget {
		n = r.Budget - r.Served
	}
	r.Src(p[:n])
	r.Served += n
	r.Reads++
	if r.KeepLog {
		r.Log = append(r.Log, p[:n]...)
	}
	return n, nil
}

// StreamSrc is a seeded byte *stream*: the bytes served do not depend on how the reads are chunked (RNG.Fill draws whole
// 64-bit words per call and is therefore chunking-dependent).
func StreamSrc(seed uint64) func([]byte) {
	r := NewRNG(seed)
	var buf []byte
	return func(p []byte) {
		for i := range p {
			if len(buf) == 0 {
				v := r.U64()
				buf = []byte{byte(v), byte(v >> 8), byte(v >> 16), byte(v >> 24), byte(v >> 32), byte(v >> 40), byte(v >> 48), byte(v >> 56)}
			}
			p[i] = buf[0]
			buf = buf[1:]
		}
	}
}

// ConstSrc fills with a constant byte.
func ConstSrc(b byte) func([]byte) {
	return func(p []byte) {
		for i := range p {
			p[i] = b
		}
	}
}

// Hex is a short helper.
func Hex(b []byte) string {
	if len(b) > 6000 {
		return hex.EncodeToString(b[:6000]) + fmt.Sprintf("…(%d bytes)", len(b))
	}
	return hex.EncodeToString(b)
}

// ---------------------------------------------------------------- held results

// Held remembers slices (and big integers) that calls returned, by reference, next to a private copy of their value at
// return time. A result belongs to the caller: no later call may change it (results carved out of pooled or reused
// buffers do exactly that). Check compares every kept reference with its copy.
type Held struct {
	mu    sync.Mutex
	items []heldItem
	Max   int // at most this many references are kept (0: 4096)
	seen  int
}

type heldItem struct {
	label string
	ref   []byte
	val   []byte
	iref  *big.Int
	ival  *big.Int
	seq   int
}

func (h *Held) full() bool {
	m := h.Max
	if m == 0 {
		m = 4096
	}
	return len(h.items) >= m
}

// Keep registers a returned slice.
func (h *Held) Keep(label string, b []byte) {
	h.mu.Lock()
	defer h.mu.Unlock()
	h.seen++
	if b == nil || h.full() {
		return
	}
	h.items = append(h.items, heldItem{label: label, ref: b, val: append([]byte{}, b...), seq: h.seen})
}

// KeepInt registers a returned integer.
func (h *Held) KeepInt(label string, v *big.Int) {
	h.mu.Lock()
	defer h.mu.Unlock()
	h.seen++
	if v == nil || h.full() {
		return
	}
	h.items = append(h.items, heldItem{label: label, iref: v, ival: new(big.Int).Set(v), seq: h.seen})
}

// Check returns a description of every kept result whose value is no longer what was returned.
func (h *Held) Check() []string {
	h.mu.Lock()
	defer h.mu.Unlock()
	var out []string
	for _, it := range h.items {
		switch {
		case it.ref != nil && !bytes.Equal(it.ref, it.val):
			out = append(out, fmt.Sprintf("%s: result #%d was %x when returned and is %x after later calls", it.label, it.seq, clip(it.val), clip(it.ref)))
		case it.iref != nil && it.iref.Cmp(it.ival) != 0:
			out = append(out, fmt.Sprintf("%s: integer result #%d was %x when returned and is %x after later calls", it.label, it.seq, it.ival, it.iref))
		}
	}
	return out
}

// Kept is the number of references under watch.
func (h *Held) Kept() int { h.mu.Lock(); defer h.mu.Unlock(); return len(h.items) }

func clip(b []byte) []byte {
	if len(b) > 48 {
		return b[:48]
	}
	return b
}
