module verif

go 1.23

require (
	github.com/anishathalye/porcupine v1.3.0
	github.com/tjfoc/gmsm v0.0.0
	golang.org/x/crypto v0.0.0-20201012173705-84dcc777aaee
)

replace github.com/tjfoc/gmsm => /repo
